"""Decision table of `_RetryState._handle_failure` (shared by C01, C02, C03, C05, C10).

Inputs of the specification (atoms), recognised *semantically* on canonical literals:

  K                 the failure class (8 members; literals on klass are evaluated per member)
  limit_set         per_class_max_attempts.get(klass) is not None
  percls_reached    #failures of klass seen before this one  >=  limit      (normal form of
                    `counts[klass] (+1, incremented first) > limit`; integer arithmetic)
  unk_set           max_unknown_attempts is not None
  unk_reached       #UNKNOWN failures seen before this one >= max_unknown_attempts
  global_reached    attempt >= max_attempts                                  (F1 repair)
  deadline_passed   elapsed() > deadline
  no_strategy       _select_strategy(klass) is None
  no_time           remaining_s <= 0
  budget_set        policy.budget is not None
  budget_ok         budget.consume() returned a truthy value

Outcome of a path: (decision, reason stored, event emitted, stop_reason tag, #strategy calls,
#consume calls, #retry emits) - see `Outcome`.
"""

from __future__ import annotations

from dataclasses import dataclass
from fractions import Fraction
from typing import Any

from ..ctx import engine
from ..model import AnalysisError, Program
from ..paths import PEvent, SymPath, linear, match, norm_less, show, subterms
from ..table import expand
from .common import (
    ERROR_CLASSES,
    HANDLE_FAILURE,
    NON_RETRYABLE,
    REASON_EVENT,
    SELF,
    attr,
    ctor_args,
    emit_info,
    enum_name,
    has_call_result,
    is_emit,
)

POLICY = attr(SELF, "policy")
KLASS = attr(("param", "classification"), "klass")
COUNT0 = ("sub", attr(SELF, "per_class_counts"), KLASS)
UNK0 = attr(SELF, "unknown_attempts")
MAX_UNK = attr(POLICY, "max_unknown_attempts")
DEADLINE = attr(POLICY, "deadline")
BUDGET = attr(POLICY, "budget")
MAX_ATTEMPTS = attr(POLICY, "max_attempts")
ATTEMPT = ("param", "attempt")


def is_limit(t: Any) -> bool:
    return (
        isinstance(t, tuple)
        and t[0] == "pure"
        and t[1] == ".get"
        and len(t[2]) >= 2
        and t[2][0] == attr(POLICY, "per_class_max_attempts")
        and t[2][1] == KLASS
        and (len(t[2]) == 2 or t[2][2] == ("const", None))
    )


def is_elapsed(t: Any) -> bool:
    return isinstance(t, tuple) and t[0] == "call" and str(t[2]).endswith("_RetryState.elapsed")


def is_strategy_sel(t: Any) -> bool:
    return isinstance(t, tuple) and t[0] == "call" and str(t[2]).endswith("_select_strategy")


def is_remaining_s(t: Any) -> bool:
    # (deadline - elapsed()).total_seconds()
    if not (isinstance(t, tuple) and len(t) == 4 and t[0] == "pure" and t[1] == ".total_seconds" and len(t[2]) == 1):
        return False
    d = t[2][0]
    return isinstance(d, tuple) and d[0] == "op" and d[1] == "-" and d[2] == DEADLINE and is_elapsed(d[3])


def is_consume(t: Any) -> bool:
    return isinstance(t, tuple) and t[0] == "call" and str(t[2]).endswith("Budget.consume")


def _terms(norm) -> dict:
    return dict(norm[1])


def classify(atom: Any, pol: bool, path: SymPath) -> tuple:
    """literal of _handle_failure -> table input"""
    # ---- class literals: decidable per member
    if atom[0] == "cmp" and atom[1] in ("is", "==") and atom[2] == KLASS:
        m = enum_name(atom[3], "ErrorClass")
        if m is not None:
            return ("fn", lambda v, m=m, pol=pol: (v["K"] == m) == pol)
    if atom[0] == "cmp" and atom[1] == "in" and atom[2] == KLASS and atom[3][0] in ("tuple", "set"):
        ms = [enum_name(x, "ErrorClass") for x in atom[3][1]]
        if all(m is not None for m in ms):
            return ("fn", lambda v, ms=frozenset(ms), pol=pol: (v["K"] in ms) == pol)
    # ---- presence tests
    if atom[0] == "cmp" and atom[1] == "is" and atom[3] == ("const", None):
        x = atom[2]
        if is_limit(x):
            return ("atom", "limit_set", not pol)
        if x == MAX_UNK:
            return ("atom", "unk_set", not pol)
        if is_strategy_sel(x):
            return ("atom", "no_strategy", pol)
        if x == BUDGET:
            return ("atom", "budget_set", not pol)
    # ---- budget answer
    if is_consume(atom):
        return ("atom", "budget_ok", pol)
    # ---- ordering literals
    if atom[0] == "cmp" and atom[1] == "<":
        ni = norm_less(atom, pol, integer=True)
        if ni is not None:
            rel, terms, c = ni
            td = dict(terms)
            lim = [k for k in td if is_limit(k)]
            if len(lim) == 1 and set(td) == {COUNT0, lim[0]}:
                # count0 - limit + c >= 0
                if td[COUNT0] == 1 and td[lim[0]] == -1 and c == 0:
                    return ("atom", "percls_reached", True)
                if td[COUNT0] == -1 and td[lim[0]] == 1 and c == -1:
                    return ("atom", "percls_reached", False)
            if set(td) == {UNK0, MAX_UNK}:
                if td[UNK0] == 1 and td[MAX_UNK] == -1 and c == 0:
                    return ("atom", "unk_reached", True)
                if td[UNK0] == -1 and td[MAX_UNK] == 1 and c == -1:
                    return ("atom", "unk_reached", False)
            if set(td) == {ATTEMPT, MAX_ATTEMPTS}:
                if td[ATTEMPT] == 1 and td[MAX_ATTEMPTS] == -1 and c == 0:
                    return ("atom", "global_reached", True)
                if td[ATTEMPT] == -1 and td[MAX_ATTEMPTS] == 1 and c == -1:
                    return ("atom", "global_reached", False)
        nf = norm_less(atom, pol, integer=False)
        if nf is not None:
            rel, terms, c = nf
            td = dict(terms)
            el = [k for k in td if is_elapsed(k)]
            if len(el) == 1 and set(td) == {el[0], DEADLINE} and c == 0:
                # elapsed - deadline > 0  (passed)   /  deadline - elapsed >= 0 (not passed)
                if td[el[0]] == 1 and td[DEADLINE] == -1 and rel == ">0":
                    return ("atom", "deadline_passed", True)
                if td[el[0]] == -1 and td[DEADLINE] == 1 and rel == ">=0":
                    return ("atom", "deadline_passed", False)
            rs = [k for k in td if is_remaining_s(k)]
            if len(rs) == 1 and set(td) == {rs[0]} and c == 0:
                # -remaining >= 0 (no time)  /  remaining > 0
                if td[rs[0]] == -1 and rel == ">=0":
                    return ("atom", "no_time", True)
                if td[rs[0]] == 1 and rel == ">0":
                    return ("atom", "no_time", False)
    # ---- equality spelling of the global cap (attempt == max_attempts coincides with >= under the loop bound)
    if atom[0] == "cmp" and atom[1] == "==" and {atom[2], atom[3]} == {ATTEMPT, MAX_ATTEMPTS}:
        return ("atom", "global_reached", pol)
    # ---- literals that cannot influence the decision
    if atom[0] == "pure" and atom[1] in ("callable", "math.isfinite"):
        return ("ignore",)
    if atom[0] == "cmp" and atom[1] in ("==", "is") and atom[2] == ("param", "cause"):
        return ("ignore",)  # record_failure's cause switch is inlined nowhere; kept for robustness
    return ("unknown", show(atom), pol)


@dataclass(frozen=True)
class Outcome:
    decision: str  # 'raise' | 'retry' | '?'
    reasons: tuple  # values stored to self.last_stop_reason, in order
    emits: tuple  # (event name, stop_reason tag) per emit
    n_strategy: int
    n_consume: int
    n_select: int


def decode(path: SymPath) -> Outcome:
    if path.exit[0] != "return":
        return Outcome("?" + path.exit[0], (), (), 0, 0, 0)
    d = ctor_args(path.exit[1], "_RetryDecision", ["action", "sleep_s", "context"])
    decision = "?"
    if d is not None and "action" in d and d["action"][0] == "const":
        decision = d["action"][1]
    reasons = []
    emits = []
    n_strategy = n_consume = n_select = 0
    for e in path.events:
        if e.kind == "store" and e.loc == attr(SELF, "last_stop_reason"):
            reasons.append(enum_name(e.value, "StopReason") or show(e.value))
        elif is_emit(e):
            info = emit_info(e)
            emits.append((info["event_name"] or show(info["event"]), info["reason_name"] if info["stop_reason"] is not None else None))
        elif e.kind == "call" and e.callback() == "strategy":
            n_strategy += 1
        elif e.kind == "call" and e.is_repo("Budget.consume"):
            n_consume += 1
        elif e.kind == "call" and e.is_repo("_select_strategy"):
            n_select += 1
    return Outcome(decision, tuple(reasons), tuple(emits), n_strategy, n_consume, n_select)


ATOMS = ["limit_set", "percls_reached", "unk_set", "unk_reached", "global_reached", "deadline_passed", "no_strategy", "no_time", "budget_set", "budget_ok"]


def true_reasons(v: dict) -> set[str]:
    out = set()
    if v["limit_set"] and v["percls_reached"]:
        out.add("MAX_ATTEMPTS_PER_CLASS")
    if v["K"] in NON_RETRYABLE:
        out.add("NON_RETRYABLE_CLASS")
    if v["K"] == "UNKNOWN" and v["unk_set"] and v["unk_reached"]:
        out.add("MAX_UNKNOWN_ATTEMPTS")
    if v.get("global_reached"):
        out.add("MAX_ATTEMPTS_GLOBAL")
    if v["deadline_passed"] or v["no_time"]:
        out.add("DEADLINE_EXCEEDED")
    if v["no_strategy"]:
        out.add("NO_STRATEGY")
    if v["budget_set"] and not v["budget_ok"]:
        out.add("BUDGET_EXHAUSTED")
    return out


class FailureTable:
    def __init__(self, prog: Program) -> None:
        self.prog = prog
        self.fi = prog.func(HANDLE_FAILURE)
        self.paths = engine(prog).paths(self.fi)
        if len(self.paths) < 8:
            raise AnalysisError(f"_handle_failure has only {len(self.paths)} paths")
        self.has_global = any(
            classify(a, pol, p)[:2] == ("atom", "global_reached") for p in self.paths for a, pol, _ in p.conds
        )
        dims: dict[str, list] = {"K": list(ERROR_CLASSES)}
        for a in ATOMS:
            if a == "global_reached" and not self.has_global:
                continue
            dims[a] = [False, True]
        self.dims = dims
        self.rows, self.unknown = expand(self.paths, classify, dims, decode)


_T: dict = {}


def failure_table(prog: Program) -> FailureTable:
    if "t" not in _T:
        _T["t"] = FailureTable(prog)
    return _T["t"]
