"""NaN-safe clamps: `min(a, b)` / `max(a, b)` in CPython return the FIRST argument unless the second compares strictly
better, and every comparison with NaN is false.  Hence  min(bound, x)  is `bound` when x is NaN (the clamp holds),
while  min(x, bound)  is NaN.  The envelopes of C18 / C20 ("finite, >= 0, <= cap") survive a NaN produced by
random.uniform(inf-ish range), float("nan") or a misbehaving callback only if the NaN-free operand comes first."""

from __future__ import annotations

from typing import Any

from ..model import Program
from ..paths import SymPath, show, subterms
from ..report import Report


def nan_free(t: Any, p: SymPath, int_params: set[str]) -> bool:
    if not isinstance(t, tuple) or not t:
        return False
    k = t[0]
    if k == "const":
        return isinstance(t[1], (int, float)) and not isinstance(t[1], bool) and t[1] == t[1]
    if k == "free":
        return True  # configuration captured by the closure (validated / documented as finite)
    if k == "attr" and t[1] == ("param", "self"):
        return True  # configuration attributes of the strategy object
    if k == "param":
        return t[1] in int_params
    if k == "pure" and t[1] in ("min", "max") and len(t[2]) == 2 and not t[3]:
        return nan_free(t[2][0], p, int_params)
    if k == "pure" and t[1] in ("len", "int", "round", "sum"):
        return True
    if k == "op" and t[1] in ("+", "-", "*", "/", "//", "**"):
        return nan_free(t[2], p, int_params) and nan_free(t[3], p, int_params)
    if any(a[0] == "pure" and a[1] == "math.isfinite" and a[2] == (t,) and pol for a, pol, _ in p.conds):
        return True
    if k == "pure" and t[1] == "float" and len(t[2]) == 1:
        return any(a[0] == "pure" and a[1] == "math.isfinite" and a[2] == (t[2][0],) and pol for a, pol, _ in p.conds)
    return False


def nan_safe_clamps(rep: Report, rid: str, prog: Program, paths_by_func: dict[str, list[SymPath]]) -> int:
    n = 0
    for q, paths in paths_by_func.items():
        fi = prog.func(q)
        int_params = {a.arg for a in fi.params() if a.annotation is not None and getattr(a.annotation, "id", None) == "int"}
        seen: set = set()
        for p in paths:
            if p.exit[0] != "return":
                continue
            for st in [p.exit[1]] + list(subterms(p.exit[1])):
                if isinstance(st, tuple) and st and st[0] == "pure" and st[1] in ("min", "max") and len(st[2]) == 2 and not st[3]:
                    key = show(st)
                    if key in seen:
                        continue
                    seen.add(key)
                    n += 1
                    rep.instance(rid, f"{q.split(':')[1]}|{key[:70]}")
                    if nan_free(st[2][0], p, int_params):
                        rep.ok(rid)
                    else:
                        rep.fail(rid, f"{q.split(':')[1]}|nan-order|{key[:40]}", f"{q}: `{key}` has the possibly-NaN operand first: {st[1]}(x, bound) returns x when x is NaN (every comparison is false), so the envelope is lost; the bound must be the first argument", where=fi.where(), function=q, path=p.describe())
    return n
