"""Assumptions of the engines about the code's small value types, checked instead of trusted.

The path engine and the abstract interpreter treat the library's record classes as transparent (constructing one
stores the arguments, reading a field gives them back), its enums as truthy, the breaker's property as a pure read
and documented aliases as the very class the handlers catch.  A change that keeps every function's control flow
but breaks one of these (a `__post_init__` that rounds a field, an IntEnum starting at 0, a getter that mutates,
an alias turned into a base class) would make the other rules reason about a program that is not the one that runs.
"""

from __future__ import annotations

import ast

from ..model import AnalysisError, Program
from ..paths import show as show_term
from ..report import Report

TRANSFORMING = ("__post_init__", "__init__", "__new__", "__setattr__", "__getattribute__", "__getattr__", "__set__", "__get__", "__setstate__", "__reduce__", "__copy__", "__deepcopy__", "__init_subclass__", "__eq__", "__bool__", "__len__", "__hash__")


def records_transparent(rep: Report, rid: str, prog: Program, quals: list[str]) -> None:
    """each listed record class stores its constructor arguments unchanged and hands them back unchanged"""
    for q in quals:
        ci = prog.cls(q)
        rep.instance(rid, f"record|{q}")
        fields = prog.all_fields(ci)
        problems = []
        for c in prog.mro(ci):
            for m, fn in c.methods.items():
                if m in TRANSFORMING:
                    problems.append(f"defines {m} (construction / field access / comparison is no longer the plain dataclass behaviour)")
                elif m in fields:
                    problems.append(f"a {'property' if fn.is_property else 'method'} shadows the field `{m}`")
        decos = [ast.unparse(d) for d in ci.node.decorator_list]
        if not any(d.split("(")[0].split(".")[-1] == "dataclass" for d in decos) and not any("NamedTuple" in ast.unparse(b) for b in ci.node.bases):
            problems.append(f"is no longer a dataclass / NamedTuple (decorators {decos})")
        for d in ci.node.decorator_list:
            if isinstance(d, ast.Call):
                for kw in d.keywords:
                    if kw.arg in ("init", "eq") and isinstance(kw.value, ast.Constant) and kw.value.value is False:
                        problems.append(f"dataclass({kw.arg}=False)")
        for st in ci.node.body:
            if isinstance(st, ast.AnnAssign) and isinstance(st.value, ast.Call) and ast.unparse(st.value.func).split(".")[-1] == "field":
                for kw in st.value.keywords:
                    if kw.arg in ("init", "compare") and isinstance(kw.value, ast.Constant) and kw.value.value is False:
                        problems.append(f"field {ast.unparse(st.target)} has {kw.arg}=False")
        if problems:
            rep.fail(rid, f"record|{q.split(':')[1]}|{problems[0][:40]}", f"{q} is treated as a transparent record by every rule that follows a value through it, but it {problems[0]}", where=f"{ci.module.relpath}:{ci.node.lineno}", function=q)
        else:
            rep.ok(rid)


def enums_truthy(rep: Report, rid: str, prog: Program, quals: list[str]) -> None:
    """`x or DEFAULT` / `if x:` on a member of these enums never mistakes a member for `missing`"""
    for q in quals:
        ci = prog.cls(q)
        rep.instance(rid, f"enum-truthy|{q}")
        bases = [ast.unparse(b) for b in ci.node.bases]
        problem = None
        if any(m in ci.methods for m in ("__bool__", "__len__")):
            problem = "defines __bool__ / __len__"
        else:
            for st in ci.node.body:
                if isinstance(st, ast.Assign) and len(st.targets) == 1 and isinstance(st.targets[0], ast.Name):
                    v = st.value
                    mixin = [b for b in bases if b.split(".")[-1] not in ("Enum",)]
                    if isinstance(v, ast.Constant) and mixin and not v.value:
                        problem = f"member {st.targets[0].id} = {v.value!r} is falsy ({', '.join(bases)})"
                    if isinstance(v, ast.Constant) and any(b.split(".")[-1] in ("IntEnum", "IntFlag", "Flag", "StrEnum") for b in bases) and not v.value:
                        problem = f"member {st.targets[0].id} = {v.value!r} is falsy ({', '.join(bases)})"
            if any(b.split(".")[-1] in ("IntFlag", "Flag") for b in bases):
                problem = problem or "is a Flag (the zero flag is falsy)"
        if problem:
            rep.fail(rid, f"enum-truthy|{q.split(':')[1]}", f"{q} {problem}: the `value or DEFAULT` idioms of the policy layer (last_class or UNKNOWN, stop_reason or ...) would treat that member as missing", where=f"{ci.module.relpath}:{ci.node.lineno}", function=q)
        else:
            rep.ok(rid)


def pure_property(rep: Report, rid: str, prog: Program, cls_qual: str, name: str, field: str) -> None:
    """the getter only reads `field` (under the lock or not): no store, no call besides taking the lock"""
    ci = prog.cls(cls_qual)
    fn = ci.methods.get(name)
    rep.instance(rid, f"pure-property|{cls_qual}.{name}")
    if fn is None or not fn.is_property:
        rep.fail(rid, f"pure-property|{name}|missing", f"{cls_qual}.{name} is no longer a property", where=f"{ci.module.relpath}:{ci.node.lineno}", function=cls_qual)
        return
    bad = None
    # on the getter's paths, with the undecorated body of a getter wrapped by a decorator of the library read through
    from ..ctx import engine

    eng = engine(prog)
    inline0 = eng.inline
    eng.inline = lambda f, inline0=inline0: bool(inline0 and inline0(f)) or f.qual.endswith(".__wrapped__")
    try:
        gpaths = eng.paths(fn, raises=lambda ev, cfg: (), key="pure-property")
    finally:
        eng.inline = inline0
    selfn = fn.param_names()[0] if fn.param_names() else "self"
    for gp in gpaths:
        for e in gp.events:
            if e.kind == "store":
                bad = bad or f"writes {show_term(e.loc)}"
            elif e.kind in ("call", "await") and not getattr(e, "pure", False):
                f = e.node.ast.func if isinstance(e.node.ast, ast.Call) else None
                if not (isinstance(f, ast.Attribute) and f.attr in ("acquire", "release")):
                    bad = bad or f"calls {e.label}"
        if gp.exit[0] == "return" and gp.exit[1] != ("attr", ("param", selfn), field):
            bad = bad or f"does not simply return self.{field}"
    if not any(gp.exit[0] == "return" for gp in gpaths):
        bad = bad or f"does not simply return self.{field}"
    if bad:
        rep.fail(rid, f"pure-property|{name}|{bad[:40]}", f"{cls_qual}.{name}: the getter {bad}; reading the breaker's state (which the policy layer does when it reports events) must not change it", where=fn.where(), function=fn.qual)
    else:
        rep.ok(rid)


def alias_is_class(rep: Report, rid: str, prog: Program, module: str, alias: str, target: str) -> None:
    """`alias` (a documented public name) is the very class `target`: what users raise under the alias is what the handlers catch"""
    m = prog.modules.get(module)
    if m is None:
        raise AnalysisError(f"anchor vanished: module {module}")
    rep.instance(rid, f"alias|{module}:{alias}")
    val = m.assigns.get(alias)
    ok = isinstance(val, ast.Name) and val.id == target
    if not ok and alias in m.classes:
        # a class of its own: acceptable only as a subclass of the target (still caught by `except target`)
        ci = m.classes[alias]
        ok = any(getattr(b, "name", None) == target for b in prog.mro(ci)[1:])
    if ok:
        rep.ok(rid)
    else:
        rep.fail(rid, f"alias|{alias}", f"{module}:{alias} is not (a subclass of) {target}: an operation raising the documented alias would not be caught by `except {target}`", where=m.relpath, function=f"{module}:{alias}")


MEMO_DECORATORS = ("lru_cache", "cache", "cached_property")
IMPURE_PREFIXES = ("time.", "datetime.", "random.", "os.", "secrets.", "uuid.")


def _memo_decorator(fn_node: ast.AST) -> str | None:
    for d in getattr(fn_node, "decorator_list", []):
        f = d.func if isinstance(d, ast.Call) else d
        name = ast.unparse(f).split(".")[-1]
        if name in MEMO_DECORATORS:
            return name
    return None


def memo_is_pure(rep: Report, rid: str, prog: Program, module_prefixes: tuple[str, ...]) -> None:
    """every memoised function / cached property in the given modules is a function of its arguments only: nothing it
    reaches reads a clock, a random source or a mutable attribute (zero-count rule: the library memoises nothing today;
    the recogniser is exercised on a built-in positive example on every run)"""
    # positive example: the recogniser must see through this shape
    sample = ast.parse("import functools\n@functools.lru_cache(maxsize=8)\ndef f(x):\n    return x\nclass C:\n    @cached_property\n    def p(self):\n        return 1\n")
    if [_memo_decorator(n) for n in ast.walk(sample) if isinstance(n, ast.FunctionDef)] != ["lru_cache", "cached_property"]:
        raise AnalysisError(f"{rid}: memoisation recogniser out of date")
    n_funcs = 0
    for fi in prog.funcs.values():
        if not fi.module.name.startswith(module_prefixes) or isinstance(fi.node, ast.Lambda):
            continue
        n_funcs += 1
        deco = _memo_decorator(fi.node)
        if deco is None:
            continue
        rep.instance(rid, f"memo|{fi.qual}|{deco}")
        seen: set[str] = set()
        todo = [fi]
        problem = None
        while todo and problem is None:
            g = todo.pop()
            if g.qual in seen:
                continue
            seen.add(g.qual)
            for n in prog._own_nodes(g.node):
                if isinstance(n, ast.Call):
                    for t in prog.resolve_call(n, g):
                        if t.kind == "repo" and t.func is not None:
                            todo.append(t.func)
                        elif t.kind == "lib" and (t.name or "").startswith(IMPURE_PREFIXES):
                            problem = f"reaches `{t.name}` (in {g.qual})"
                        elif t.kind == "callback":
                            problem = f"calls the user callable `{t.category}` (in {g.qual})"
                elif deco == "cached_property" and g is fi and isinstance(n, ast.Attribute) and isinstance(n.value, ast.Name) and n.value.id == (fi.positional_params() or ["self"])[0] and isinstance(n.ctx, ast.Load):
                    # a cached property freezes whatever it read from the object the first time
                    ci = fi.cls
                    init_only = ci is not None and all(
                        w.name == "__init__"
                        for w in ci.methods.values()
                        for x in prog._own_nodes(w.node)
                        if isinstance(x, ast.Attribute) and isinstance(x.ctx, ast.Store) and x.attr == n.attr
                    )
                    if not init_only:
                        problem = f"reads `self.{n.attr}`, which is written after construction"
        if problem:
            rep.fail(rid, f"memo|{fi.qual}|{problem[:40]}", f"{fi.qual} is memoised ({deco}) but {problem}: a later call / read gets the value computed the first time", where=fi.where(), function=fi.qual)
        else:
            rep.ok(rid)
    rep.instance(rid, f"memo|scanned|{'/'.join(module_prefixes)}", {"functions": n_funcs})
    if n_funcs < 3:
        raise AnalysisError(f"{rid}: only {n_funcs} functions under {module_prefixes}")
    rep.ok(rid)
