"""Typestate analyses over the four retry runners (shared base client)."""

from __future__ import annotations

import ast
from typing import Any, Callable, Iterable

from ..absint import Client, Event, Exit, Interp
from ..ctx import cfgs
from ..model import FuncInfo, Program
from .common import RUNNERS

RUN_MODULES = {
    "redress.policy.state",
    "redress.policy.retry_helpers",
    "redress.policy.runner.logic",
    "redress.policy.runner.sync_core",
    "redress.policy.runner.async_core",
    "redress.policy.runner.timeline",
    "redress.policy.base",
}

def _known_modules() -> set[str]:
    import os

    path = os.path.join(os.path.dirname(os.path.dirname(os.path.abspath(__file__))), "known_funcs.txt")
    try:
        with open(path) as fh:
            return {ln.split(":", 1)[0].strip() for ln in fh if ln.strip()}
    except OSError:
        return set()


KNOWN_MODULES = _known_modules()

ALL_KINDS = (
    "AbortRetryError",
    "CancelledError",
    "KeyboardInterrupt",
    "SystemExit",
    "GeneratorExit",
    "RetryExhaustedError",
    "CircuitOpenError",
    "TimeoutError",
    "OtherException",
    "OtherBase",
)
EXC_KINDS = ("AbortRetryError", "RetryExhaustedError", "CircuitOpenError", "TimeoutError", "OtherException")
CANCEL_KINDS = ("CancelledError", "KeyboardInterrupt", "SystemExit")

TRACKED = {
    "action", "decision", "last_stop_reason", "started", "end_called", "last_cause", "abort_if",
    "stop_reason", "cause", "ok", "context",
}

SLEEP_DECISIONS = [("e", "SleepDecision", "SLEEP"), ("e", "SleepDecision", "DEFER"), ("e", "SleepDecision", "ABORT")]


def flag1(flags: frozenset, f: str) -> frozenset:
    """keep only the first flag of a path: bounds the typestate (2^flags otherwise)"""
    return flags if flags else frozenset({f})


class RunnerClient(Client):
    """descends through the retry machinery; subclasses define the typestate"""

    name = "runner"
    fault: dict[str, tuple] = {"operation": ALL_KINDS}
    await_fault: tuple = ()
    tracked = TRACKED

    def __init__(self, prog: Program) -> None:
        self.prog = prog

    def descend(self, fi: FuncInfo, ev: Event) -> bool:
        if fi.module.name in RUN_MODULES:
            return True
        # a module that did not exist when the rules were written (code moved out of the run-path modules)
        return fi.module.name.startswith("redress.policy") and fi.module.name not in KNOWN_MODULES

    def relevant_iter(self, ev: Event) -> bool:
        # the attempt loop iterates range(...); loops over containers in helpers (copying tags, scanning hooks) are incidental
        it = ev.node.info.get("iter")
        if isinstance(it, ast.Name):
            # a local bound once to the range (`attempt_numbers = range(1, n + 1)`; `for attempt in attempt_numbers`)
            fn = getattr(getattr(ev.cfg, "func", None), "node", None)
            binds = [n.value for n in ast.walk(fn) if isinstance(n, ast.Assign) and len(n.targets) == 1 and isinstance(n.targets[0], ast.Name) and n.targets[0].id == it.id] if fn is not None else []
            stores = [n for n in ast.walk(fn) if isinstance(n, ast.Name) and n.id == it.id and isinstance(n.ctx, (ast.Store, ast.Del))] if fn is not None else []
            if len(binds) == 1 and len(stores) == 1:
                it = binds[0]
        return isinstance(it, ast.Call) and isinstance(it.func, ast.Name) and it.func.id == "range"

    def callback_kinds(self, category: str, ev: Event) -> Iterable[str]:
        return self.fault.get(category, self.fault.get("*", ()))

    def await_kinds(self, category: str | None, ev: Event) -> Iterable[str]:
        out = tuple(self.await_fault)
        if category is not None:
            out = out + tuple(k for k in self.fault.get(category, self.fault.get("*", ())) if k not in out)
        return out

    def lib_kinds(self, name: str, ev: Event) -> Iterable[str]:
        # future.result(...) surfaces whatever the submitted operation raised (+ the timeout)
        if name.endswith(".submit().result"):
            ks = tuple(self.fault.get("operation", ()))
            return ks + (("TimeoutError",) if "TimeoutError" not in ks and ks else ())
        return ()

    def callback_results(self, category: str, ev: Event) -> list | None:
        # typed domain: a sleep handler returns a SleepDecision member
        if category == "sleep_handler":
            return list(SLEEP_DECISIONS)
        return None

    def track_attr(self, leaf: str) -> bool:
        return leaf in self.tracked

    def refine_attr(self, leaf: str) -> bool:
        return leaf in self.tracked

    # ---- helpers for subclasses
    @staticmethod
    def is_operation(ev: Event) -> bool:
        if ev.kind != "call" or ev.target is None:
            return False
        if ev.target.kind == "callback" and ev.target.category == "operation":
            return True
        # executor.submit(func): the operation is handed to the worker exactly here
        if ev.target.kind in ("lib", "unknown") and (ev.target.name or "").endswith(".submit"):
            for a in ev.call.args:
                t = ev.interp.prog.type_of(a, ev.func)
                if any(x[0] == "cb" and x[1] == "operation" for x in t):
                    return True
        return False

    @staticmethod
    def callee_is(ev: Event, suffix: str) -> bool:
        return ev.target is not None and ev.target.func is not None and ev.target.func.qual.endswith(suffix)

    @staticmethod
    def is_callback(ev: Event, category: str) -> bool:
        return ev.kind == "call" and ev.target is not None and ev.target.kind == "callback" and ev.target.category == category


class _LightInterp:
    """what the rules need from an Interp that ran in a worker process"""

    def __init__(self, visited: set, stats: dict) -> None:
        self.visited_funcs = visited
        self.stats = stats

    def witness_path(self, w: Any, limit: int = 400) -> list:
        return list(w) if isinstance(w, (list, tuple)) else []


_JOB: dict = {}


def _work(name: str):
    prog, make = _JOB["prog"], _JOB["make"]
    client = make()
    interp = Interp(prog, cfgs(prog), client)
    exits = interp.run(prog.func(RUNNERS[name]), {}, client.initial())
    light = []
    for ex in exits:
        light.append(Exit(ex.how, ex.kind, ex.retval, ex.env, ex.cstate, _short(interp, ex)))
    extra = {k: v for k, v in client.__dict__.items() if isinstance(v, (set, dict, list, frozenset)) and k not in ("prog",)}
    return name, light, set(interp.visited_funcs), dict(interp.stats), extra


def _short(interp: Interp, ex: Exit, keep: int = 30) -> list[Any]:
    steps = interp.witness_path(ex.witness)
    out = []
    for s in steps:
        if s[0] == "callee-exit":
            out.append(("callee-exit", s[1].split(":")[-1], s[2], s[3]))
        elif s[0] == "call":
            out.append(("call", s[1].split(":")[-1], s[2]))
        else:
            out.append(tuple(s[:4]))
    return out[-keep:]


def run_runners(prog: Program, make: Callable[[], RunnerClient], which: Iterable[str] | None = None) -> dict[str, tuple[Any, list[Exit], RunnerClient]]:
    """typestate run of each runner; the four runs are independent and go to forked workers"""
    import multiprocessing as mp
    import os

    names = [n for n in RUNNERS if which is None or n in which]
    out: dict = {}
    results = None
    if len(names) > 1 and os.environ.get("VERIF_SERIAL") != "1":
        _JOB["prog"], _JOB["make"] = prog, make
        try:
            with mp.get_context("fork").Pool(min(4, len(names))) as pool:
                results = pool.map(_work, names)
        except Exception:  # noqa: BLE001 - fall back to the serial path (same results)
            results = None
        finally:
            _JOB.clear()
    if results is None:
        _JOB["prog"], _JOB["make"] = prog, make
        try:
            results = [_work(n) for n in names]
        finally:
            _JOB.clear()
    for name, exits, visited, stats, extra in results:
        client = make()
        for k, v in extra.items():
            try:
                setattr(client, k, v)
            except Exception:  # noqa: BLE001
                pass
        out[name] = (_LightInterp(visited, stats), exits, client)
    return out


def short_witness(interp: Any, ex: Exit, keep: int = 30) -> list[Any]:
    if isinstance(ex.witness, (list, tuple)):
        return list(ex.witness)[-keep:]
    return _short(interp, ex, keep)
