"""Rolling-window idioms shared by C06 (breaker failure windows) and C10 (budget window).

A *prune* of container X at time `now` with window W is either
  - a call of the class's prune helper (whose own shape is checked by `window_shape`), or
  - an inline loop  `while X and X[0] <= now - W: X.popleft()`  in the analysed function itself
    (the helper inlined by hand), verified here from the function's own iteration paths.
Rules ask `prunes(p)` for the prunes on a path and never look at how they are spelled.
"""

from __future__ import annotations

import ast
from dataclasses import dataclass
from typing import Any, Callable

from ..paths import PEvent, SymPath, norm_less, show


def is_method(e: PEvent, name: str) -> bool:
    f = e.node.ast.func if isinstance(e.node.ast, ast.Call) else None
    return e.kind == "call" and isinstance(f, ast.Attribute) and f.attr == name and e.callback() is None and not any(t.kind in ("repo", "ctor") for t in e.targets)


@dataclass
class Prune:
    index: int  # position in p.items
    container: Any
    now: Any
    how: str  # 'helper' | 'inline-loop'
    event: PEvent | None = None


@dataclass
class LoopIdiom:
    head: int
    container: Any = None
    now: Any = None
    problem: str | None = None


def _loop_of(item: tuple, top_cfg: Any) -> int | None:
    if item[0] != "cond":
        return None
    node, cfg = item[3], (item[4] if len(item) > 4 else None)
    if cfg is not None and cfg is not top_cfg:
        return None
    return node.info.get("loop_test_of")


def loop_idioms(paths: list[SymPath], top_cfg: Any, window: Any) -> dict[int, LoopIdiom]:
    """verify every `while` loop of the analysed function that pops from a deque: the iteration
    that pops is guarded by `X and X[0] <= now - window` and does nothing but one X.popleft()"""
    out: dict[int, LoopIdiom] = {}
    for p in paths:
        if p.exit[0] != "loop":
            continue
        h = p.exit[1]
        node = top_cfg.nodes[h] if isinstance(h, int) and h < len(top_cfg.nodes) else None
        if node is None or not isinstance(node.ast, ast.While):
            continue
        idi = out.setdefault(h, LoopIdiom(h))
        start = next((i for i, it in enumerate(p.items) if _loop_of(it, top_cfg) == h), None)
        if start is None:
            idi.problem = "iteration path without the loop test"
            continue
        suffix = p.items[start:]
        conds = [(it[1], it[2]) for it in suffix if it[0] == "cond"]
        evs = [it[1] for it in suffix if it[0] == "ev" and it[1].kind in ("call", "store", "await") and not (it[1].kind == "call" and it[1].pure)]
        pops = [e for e in evs if is_method(e, "popleft")]
        if len(pops) != 1 or len(evs) != 1:
            idi.problem = f"loop body has effects {[e.label for e in evs]}; expected exactly one popleft()"
            continue
        X = pops[0].recv
        first = ("sub", X, ("const", 0))
        truthy = any((a == X and pol) for a, pol in conds) or any(
            a == ("cmp", "<", ("const", 0), ("pure", "len", (X,), ())) and pol for a, pol in conds
        )
        now = None
        for a, pol in conds:
            nf = norm_less(a, pol, integer=False) if a[0] == "cmp" and a[1] == "<" else None
            if nf is None:
                continue
            rel, terms, c = nf
            td = dict(terms)
            # now - window - X[0] >= 0
            if rel == ">=0" and c == 0 and td.get(first) == -1 and td.get(window) == -1 and len(td) == 3:
                (cand,) = [k for k in td if k not in (first, window)]
                if td[cand] == 1:
                    now = cand
        if not truthy or now is None or len(conds) != 2:
            idi.problem = f"iteration guarded by {[('' if pol else 'not ') + show(a) for a, pol in conds]}; expected `X and X[0] <= now - window`"
            continue
        if idi.container is not None and (idi.container, idi.now) != (X, now):
            idi.problem = "iterations of one loop prune different containers"
            continue
        idi.container, idi.now = X, now
    return out


@dataclass
class WindowSpec:
    helper: str  # qualified-name suffix of the prune helper ("Budget._prune")
    container: Callable[[PEvent], Any]  # helper call -> pruned container term
    now: Callable[[PEvent], Any]  # helper call -> time argument
    window: Any  # self._window_s / self.window_s


_HELPER_INFO: dict[str, Any] = {}


def helper_prune_info(fi: Any) -> dict | None:
    """shape of a prune helper that did not exist when the rules were written (a function or a method of the window
    itself), verified on its own paths: which parameter is the pruned container, and where the time comes from -
    {'container': param | 'self', 'cutoff': param}  for  `while X and X[0] <= cutoff`  or
    {'container': ..., 'now': param, 'window': param}  for  `while X and X[0] <= now - window`"""
    from ..ctx import engine
    from ..model import program
    from ..paths import looks_like_prune

    if fi.qual in _HELPER_INFO:
        return _HELPER_INFO[fi.qual]
    _HELPER_INFO[fi.qual] = None
    if not looks_like_prune(fi):
        return None
    prog = program()
    E = engine(prog)
    paths = E.paths(fi)
    iters = [p for p in paths if p.exit[0] == "loop"]
    others = [p for p in paths if p.exit[0] != "loop"]
    if len(iters) != 1 or any(p.exit[0] != "return" or [e for e in p.events if e.kind in ("call", "store", "await") and not (e.kind == "call" and e.pure)] for p in others):
        return None
    p = iters[0]
    conds = [(a, pol) for a, pol, _ in p.conds]
    pops = [e for e in p.events if e.kind == "call" and not e.pure]
    if len(pops) != 1 or not is_method(pops[0], "popleft") or len(conds) != 2:
        return None
    X = pops[0].recv
    if not (isinstance(X, tuple) and X[0] == "param"):
        return None
    first = ("sub", X, ("const", 0))
    truthy = any((a == X and pol) or (a == ("cmp", "<", ("const", 0), ("pure", "len", (X,), ())) and pol) for a, pol in conds)
    info = None
    for a, pol in conds:
        nf = norm_less(a, pol, integer=False) if a[0] == "cmp" and a[1] == "<" else None
        if nf is None:
            continue
        rel, terms, c = nf
        td = dict(terms)
        if rel != ">=0" or c != 0 or td.get(first) != -1 or not all(isinstance(k, tuple) and k[0] in ("param", "sub") for k in td):
            continue
        rest = {k: v for k, v in td.items() if k != first}
        plus = [k for k, v in rest.items() if v == 1 and k[0] == "param"]
        minus = [k for k, v in rest.items() if v == -1 and k[0] == "param"]
        if len(rest) == 1 and len(plus) == 1:
            info = {"cutoff": plus[0][1]}
        elif len(rest) == 2 and len(plus) == 1 and len(minus) == 1:
            info = {"now": plus[0][1], "window": minus[0][1]}
    if not truthy or info is None:
        return None
    first_param = fi.positional_params()[0] if fi.positional_params() else None
    info["container"] = "self" if (fi.is_method and not fi.is_staticmethod and X[1] == first_param) else X[1]
    _HELPER_INFO[fi.qual] = info
    return info


def _helper_prune(e: PEvent, spec: "WindowSpec") -> tuple[Any, Any] | None:
    """(container, now) of a call of a verified new prune helper, in the caller's terms"""
    from ..paths import linear

    # one repository target; a local that may also hold what `dict.get()` returned adds an unnamed library candidate
    # (the None of a missing key, excluded by the `is None` test on the path) - not a second prune
    repo_t = [t for t in e.targets if t.kind == "repo" and t.func is not None]
    if len(repo_t) != 1 or any(not (t.kind == "lib" and (not t.name or "()." in t.name)) for t in e.targets if t not in repo_t):
        return None
    info = helper_prune_info(repo_t[0].func)
    if info is None:
        return None
    X = e.recv if info["container"] == "self" else e.kwargs.get(info["container"])
    if X is None:
        return None
    if "cutoff" in info:
        t = e.kwargs.get(info["cutoff"])
        lin = linear(t) if t is not None else None
        if lin is None or lin[0] != 0:
            return None
        td = dict(lin[1])
        if td.get(spec.window) != -1 or len(td) != 2:
            return None
        (now,) = [k for k in td if k != spec.window]
        return (X, now) if td[now] == 1 else None
    if e.kwargs.get(info["window"]) != spec.window:
        return None
    return X, e.kwargs.get(info["now"])


def prunes(p: SymPath, spec: WindowSpec, idioms: dict[int, LoopIdiom], top_cfg: Any) -> list[Prune]:
    out: list[Prune] = []
    seen: set[int] = set()
    for i, it in enumerate(p.items):
        if it[0] == "ev" and it[1].kind == "call" and it[1].is_repo(spec.helper):
            out.append(Prune(i, spec.container(it[1]), spec.now(it[1]), "helper", it[1]))
        elif it[0] == "ev" and it[1].kind == "call" and not it[1].pure and _helper_prune(it[1], spec) is not None:
            X, now = _helper_prune(it[1], spec)
            out.append(Prune(i, X, now, "helper", it[1]))
        else:
            h = _loop_of(it, top_cfg)
            if h is not None and h not in seen and h in idioms and idioms[h].problem is None and idioms[h].container is not None:
                seen.add(h)
                out.append(Prune(i, idioms[h].container, idioms[h].now, "inline-loop"))
    return out


def unverified_loops(idioms: dict[int, LoopIdiom]) -> list[LoopIdiom]:
    return [i for i in idioms.values() if i.problem is not None]


def param_roles(fi: Any) -> dict[str, str]:
    """role -> parameter name of a private window helper, by annotation (names and order are free):
    klass: ErrorClass, now: float, bucket: deque[...]; falls back to the canonical names"""
    out: dict[str, str] = {}
    for a in fi.params():
        ann = ast.unparse(a.annotation) if a.annotation is not None else ""
        if "ErrorClass" in ann:
            out.setdefault("klass", a.arg)
        elif ann.replace(" ", "") == "float":
            out.setdefault("now", a.arg)
        elif ann.startswith(("deque", "collections.deque", "Deque")):
            out.setdefault("bucket", a.arg)
    names = fi.param_names()
    for role in ("klass", "now", "bucket"):
        if role not in out and role in names:
            out[role] = role
    return out


def arg_of(e: PEvent, name: str | None) -> Any:
    """argument bound to parameter `name` of the (repository) callee of `e`"""
    return e.kwargs.get(name) if name is not None else None
