"""E4 - decision tables: expand the path set of a loop-free function to a total table.

A rule supplies
  * `classify(literal, polarity, path)` mapping each canonical branch literal of a path to
        ('atom', name, polarity)        a named Boolean input of the specification
        ('fn', callable(valuation))     a literal decidable from the enumerated dimensions
        ('ignore',)                     provably irrelevant for the outcome being compared
        ('unknown', key, polarity)      anything else -> becomes an extra free Boolean input
  * `dims`: name -> list of values (Booleans for atoms, enum members for class dimensions)
  * `outcome(path)`: the observable the specification talks about

`expand` evaluates every path's cube on every valuation (Boolean evaluation of the
extracted guards - the program is not run) and returns, per valuation, the set of distinct
outcomes of the paths consistent with it.  A deterministic function whose guards are all
understood yields exactly one outcome per valuation; more than one outcome means the
outcome depends on something the recogniser does not understand (reported by the rule).
"""

from __future__ import annotations

import itertools
from typing import Any, Callable

from .model import AnalysisError
from .paths import SymPath, show


def expand(
    paths: list[SymPath],
    classify: Callable[[Any, bool, SymPath], tuple],
    dims: dict[str, list[Any]],
    outcome: Callable[[SymPath], Any],
    constraint: Callable[[dict], bool] | None = None,
    max_unknown: int = 8,
) -> tuple[list[tuple[dict, dict[Any, list[SymPath]]]], list[str]]:
    cubes = []
    unknown: dict[str, None] = {}
    for p in paths:
        lits = []
        for atom, pol, _node in p.conds:
            c = classify(atom, pol, p)
            if c[0] == "ignore":
                continue
            if c[0] == "unknown":
                unknown.setdefault(c[1])
                lits.append(("atom", "?" + c[1], c[2]))
            else:
                lits.append(c)
        cubes.append((p, lits, outcome(p)))
    if len(unknown) > max_unknown:
        raise AnalysisError(
            f"{len(unknown)} unrecognised branch conditions (more than {max_unknown}); first: {list(unknown)[:3]}"
        )
    all_dims = dict(dims)
    for u in unknown:
        all_dims["?" + u] = [False, True]
    names = list(all_dims)
    rows = []
    for combo in itertools.product(*(all_dims[n] for n in names)):
        val = dict(zip(names, combo))
        if constraint is not None and not constraint(val):
            continue
        outs: dict[Any, list[SymPath]] = {}
        for p, lits, out in cubes:
            ok = True
            for lit in lits:
                if lit[0] == "atom":
                    if val[lit[1]] != lit[2]:
                        ok = False
                        break
                elif lit[0] == "fn":
                    if not lit[1](val):
                        ok = False
                        break
            if ok:
                outs.setdefault(out, []).append(p)
        rows.append((val, outs))
    return rows, list(unknown)


def fmt_val(val: dict) -> str:
    return ", ".join(f"{k}={getattr(v, 'name', v) if not isinstance(v, tuple) else v[-1]}" for k, v in val.items())
