#!/venv/bin/python
"""Self-test of the checker: seeded single edits of a scratch copy of /repo/src.

Every variant is an exact-text edit (asserted to match exactly once) of a scratch copy created
under a fresh mkdtemp outside /repo and /verif and removed afterwards.  `fire` variants must make
the named property's check exit 1 with a VIOLATION line; `silent` variants (behaviour-preserving
rewrites) must leave it at exit 0.  Not a MANIFEST check; run by hand:

    /venv/bin/python selftest/run.py [-j 16] [--only C03] [--id substr]
"""

from __future__ import annotations

import concurrent.futures as cf
import importlib.util
import os
import shutil
import subprocess
import sys
import tempfile

HERE = os.path.dirname(os.path.abspath(__file__))
VERIF = os.path.dirname(HERE)
REPO = os.environ.get("REDRESS_REPO", "/repo")


def load_variants() -> list[dict]:
    out = []
    vdir = os.path.join(HERE, "variants")
    for fn in sorted(os.listdir(vdir)):
        if fn.endswith(".py"):
            spec = importlib.util.spec_from_file_location(fn[:-3], os.path.join(vdir, fn))
            mod = importlib.util.module_from_spec(spec)
            spec.loader.exec_module(mod)
            for v in mod.VARIANTS:
                v.setdefault("source", fn)
                out.append(v)
    return out


def run_variant(v: dict) -> tuple[dict, bool, str]:
    tmp = tempfile.mkdtemp(prefix="redress_selftest_")
    try:
        shutil.copytree(os.path.join(REPO, "src"), os.path.join(tmp, "src"))
        for path, old, new in v["edits"]:
            fp = os.path.join(tmp, path)
            with open(fp) as fh:
                s = fh.read()
            if s.count(old) != 1:
                return v, False, f"EDIT-ERROR: pattern occurs {s.count(old)} times in {path}"
            with open(fp, "w") as fh:
                fh.write(s.replace(old, new))
        # the variant must still compile
        for path, _o, _n in v["edits"]:
            r = subprocess.run(["/venv/bin/python", "-m", "py_compile", os.path.join(tmp, path)], capture_output=True, text=True)
            if r.returncode != 0:
                return v, False, "EDIT-ERROR: does not compile: " + r.stderr[-300:]
        env = dict(os.environ, REDRESS_REPO=tmp, VERIF_OUT=os.path.join(tmp, "out"))
        outs = []
        ok = True
        for prop in v["props"]:
            r = subprocess.run(["/venv/bin/python", os.path.join(VERIF, "check"), prop], capture_output=True, text=True, env=env, cwd=VERIF)
            fired = r.returncode == 1 and "VIOLATION property=" + prop in r.stdout
            lines = [ln for ln in r.stdout.splitlines() if ln.startswith(("  R", "ANALYSIS-ERROR", "KNOWN")) and " instances=" not in ln]
            if v["expect"] == "fire":
                good = fired
                if good and v.get("rule"):
                    good = any(v["rule"] in ln for ln in lines)
            else:
                good = r.returncode == 0
            ok = ok and good
            outs.append(f"{prop}: rc={r.returncode} " + (" | ".join(lines[:3]))[:400])
        return v, ok, "; ".join(outs)
    finally:
        shutil.rmtree(tmp, ignore_errors=True)


def main() -> int:
    args = sys.argv[1:]
    jobs = 16
    only = None
    ident = None
    if "-j" in args:
        jobs = int(args[args.index("-j") + 1])
    if "--only" in args:
        only = args[args.index("--only") + 1]
    if "--id" in args:
        ident = args[args.index("--id") + 1]
    vs = load_variants()
    if only:
        vs = [v for v in vs if only in v["props"]]
    if ident:
        vs = [v for v in vs if ident in v["id"]]
    bad = 0
    with cf.ThreadPoolExecutor(max_workers=jobs) as ex:
        for v, ok, msg in ex.map(run_variant, vs):
            print(("PASS " if ok else "FAIL ") + f"{v['id']:55s} expect={v['expect']:6s} {msg[:300]}")
            bad += not ok
    print(f"{len(vs)} variants, {bad} failed")
    return 1 if bad else 0


if __name__ == "__main__":
    sys.exit(main())
