#!/venv/bin/python
"""False-alarm test: apply a behaviour-preserving refactoring (patch.diff) to a scratch copy of
/repo/src, confirm the pinned suite still passes, run all 20 quick checks: every check must exit 0.

    tools/eval_refactor.py <dir with patch.diff> <id> [--keep]
"""
import json
import os
import re
import shutil
import subprocess
import sys
import tempfile
from concurrent.futures import ThreadPoolExecutor

VERIF = os.path.dirname(os.path.dirname(os.path.abspath(__file__)))
PROPS = [f"C{i:02d}" for i in range(1, 21)]


def sh(cmd, cwd=None, env=None, timeout=900):
    r = subprocess.run(cmd, cwd=cwd, env=env, capture_output=True, text=True, timeout=timeout)
    return r.returncode, r.stdout + r.stderr


def main() -> int:
    src, rid = sys.argv[1], sys.argv[2]
    keep = "--keep" in sys.argv
    tmp = tempfile.mkdtemp(prefix="redress_refactor_")
    wt = os.path.join(tmp, "wt")
    try:
        rc, out = sh(["git", "-C", "/repo", "worktree", "add", "-q", "--detach", wt, "HEAD"])
        rc, out = sh(["git", "-C", wt, "apply", os.path.join(src, "patch.diff")])
        if rc:
            print(json.dumps({"id": rid, "error": "patch does not apply", "out": out[-300:]}))
            return 2
        env = dict(os.environ, PYTHONPATH=os.path.join(wt, "src"))
        rct, outt = sh(["/venv/bin/python", "-m", "pytest", "-q", "-p", "no:cacheprovider", "--no-cov", "-x"], cwd=wt, env=env)
        m = re.search(r"(\d+) passed", outt)
        passed = int(m.group(1)) if m else 0
        cenv = dict(os.environ, REDRESS_REPO=wt, VERIF_OUT=os.path.join(tmp, "out"))

        def run(p):
            rc, out = sh(["/venv/bin/python", os.path.join(VERIF, "check"), p], cwd=VERIF, env=cenv)
            lines = [ln.strip() for ln in out.splitlines() if (re.match(r"\s+R[\d.abc]+:", ln) and " instances=" not in ln) or ln.startswith("ANALYSIS-ERROR")]
            return p, rc, lines

        alarms = {}
        with ThreadPoolExecutor(max_workers=10) as ex:
            for p, rc, lines in ex.map(run, PROPS):
                if rc != 0:
                    alarms[f"{p} (exit {rc})"] = lines[:2]
        res = {"id": rid, "tests_passed": passed, "tests_rc": rct, "alarms": alarms}
        print(json.dumps(res, indent=1))
        if keep and passed >= 225 and rct == 0:
            dst = os.path.join(VERIF, "refactorings", rid)
            os.makedirs(dst, exist_ok=True)
            for f in ("patch.diff", "notes.md"):
                if os.path.exists(os.path.join(src, f)):
                    shutil.copy(os.path.join(src, f), os.path.join(dst, f))
            json.dump({"id": rid, "kind": "behaviour-preserving refactoring by an independent sub-agent", "tests_passed": passed, "expected": "every check exits 0", "alarms_when_first_run": alarms}, open(os.path.join(dst, "meta.json"), "w"), indent=1)
        return 0
    finally:
        sh(["git", "-C", "/repo", "worktree", "remove", "--force", wt])
        shutil.rmtree(tmp, ignore_errors=True)


if __name__ == "__main__":
    sys.exit(main())
