#!/venv/bin/python
"""Confirm and evaluate a seeded change produced by an independent sub-agent.

    tools/eval_seeded.py <src_dir with patch.diff, demo.py, notes.md> <seed id> <property id> [--keep]

1. fresh scratch worktree of /repo HEAD under a mkdtemp (outside /repo and /verif);
2. demo.py must exit 0 on the clean tree;
3. apply patch.diff, the pinned test suite must still pass (225 passed), demo.py must exit != 0;
4. run all 20 quick checks against the patched scratch tree (REDRESS_REPO / VERIF_OUT point at the
   scratch copy, so neither /repo nor the committed evidence is touched);
5. with --keep: store patch.diff, demo.py, notes.md and meta.json under /verif/seeded/<seed id>/;
6. remove the worktree.
"""

from __future__ import annotations

import json
import os
import re
import shutil
import subprocess
import sys
import tempfile
from concurrent.futures import ThreadPoolExecutor

VERIF = os.path.dirname(os.path.dirname(os.path.abspath(__file__)))
PROPS = [f"C{i:02d}" for i in range(1, 21)]


def sh(cmd: list[str], cwd: str | None = None, env: dict | None = None, timeout: int = 900) -> tuple[int, str]:
    r = subprocess.run(cmd, cwd=cwd, env=env, capture_output=True, text=True, timeout=timeout)
    return r.returncode, (r.stdout + r.stderr)


def main() -> int:
    src, seed, prop = sys.argv[1], sys.argv[2], sys.argv[3]
    keep = "--keep" in sys.argv
    tmp = tempfile.mkdtemp(prefix="redress_seed_")
    wt = os.path.join(tmp, "wt")
    meta: dict = {"seed": seed, "property": prop}
    try:
        rc, out = sh(["git", "-C", "/repo", "worktree", "add", "-q", "--detach", wt, "HEAD"])
        if rc:
            print(out)
            return 2
        env = dict(os.environ, PYTHONPATH=os.path.join(wt, "src"))
        demo = os.path.join(src, "demo.py")
        rc0, out0 = sh(["/venv/bin/python", demo], cwd=tmp, env=env, timeout=300)
        meta["demo_clean_rc"] = rc0
        rc, out = sh(["git", "-C", wt, "apply", os.path.join(src, "patch.diff")])
        if rc:
            print("patch does not apply:", out)
            meta["error"] = "patch does not apply"
            print(json.dumps(meta))
            return 2
        rct, outt = sh(["/venv/bin/python", "-m", "pytest", "-q", "-p", "no:cacheprovider", "--no-cov", "-x"], cwd=wt, env=env)
        m = re.search(r"(\d+) passed", outt)
        meta["tests_passed"] = int(m.group(1)) if m else 0
        meta["tests_rc"] = rct
        rc1, out1 = sh(["/venv/bin/python", demo], cwd=tmp, env=env, timeout=300)
        meta["demo_patched_rc"] = rc1
        meta["demo_patched_out"] = out1.strip().splitlines()[-3:]
        confirmed = rc0 == 0 and rc1 != 0 and meta["tests_passed"] >= 225 and rct == 0
        meta["confirmed"] = confirmed
        cenv = dict(os.environ, REDRESS_REPO=wt, VERIF_OUT=os.path.join(tmp, "out"))

        def run(p: str):
            rc, out = sh(["/venv/bin/python", os.path.join(VERIF, "check"), p], cwd=VERIF, env=cenv)
            lines = [ln.strip() for ln in out.splitlines() if re.match(r"\s+R[\d.ab]+:", ln) and " instances=" not in ln]
            return p, rc, lines, [ln for ln in out.splitlines() if ln.startswith("ANALYSIS-ERROR")]

        fired = {}
        with ThreadPoolExecutor(max_workers=10) as ex:
            for p, rc, lines, errs in ex.map(run, PROPS):
                if rc == 1:
                    fired[p] = lines[:3]
                elif rc != 0:
                    fired[p + "(exit %d)" % rc] = errs[:1]
        meta["checks_fired"] = fired
        meta["caught_by_own_property"] = prop in fired
        meta["caught"] = any(not k.endswith(")") for k in fired)
        print(json.dumps(meta, indent=1))
        if keep and confirmed:
            dst = os.path.join(VERIF, "seeded", seed)
            os.makedirs(dst, exist_ok=True)
            for f in ("patch.diff", "demo.py", "notes.md"):
                if os.path.exists(os.path.join(src, f)):
                    shutil.copy(os.path.join(src, f), os.path.join(dst, f))
            notes = open(os.path.join(src, "notes.md")).read() if os.path.exists(os.path.join(src, "notes.md")) else ""
            m2 = {
                "id": seed,
                "breaks_property": prop,
                "needs_to_manifest": notes.strip().split("\n\n")[-1][:600] if notes else "",
                "what_was_run": [
                    "git worktree add <scratch> HEAD; demo.py on the clean tree -> exit %d" % rc0,
                    "git apply patch.diff; pytest -q -p no:cacheprovider --no-cov -> %d passed (rc %d)" % (meta["tests_passed"], rct),
                    "demo.py on the patched tree -> exit %d" % rc1,
                    "check C01..C20 --tier quick against the patched scratch tree",
                ],
                "checks_that_fire": fired,
                "caught_by_own_property_check": prop in fired,
                "origin": "independent sub-agent given only the property text and a scratch worktree",
            }
            json.dump(m2, open(os.path.join(dst, "meta.json"), "w"), indent=1)
        return 0
    finally:
        sh(["git", "-C", "/repo", "worktree", "remove", "--force", wt])
        shutil.rmtree(tmp, ignore_errors=True)


if __name__ == "__main__":
    sys.exit(main())
