#!/venv/bin/python
"""Regenerate the catalogue table of DESIGN.md section 8.3 from /verif/seeded/*/meta.json and notes.md."""
import json
import os
import re

VERIF = os.path.dirname(os.path.dirname(os.path.abspath(__file__)))
rows = ["| id | breaks | change (from the author's notes) | checks that fire now | first run |", "|---|---|---|---|---|"]
for seed in sorted(os.listdir(os.path.join(VERIF, "seeded"))):
    d = os.path.join(VERIF, "seeded", seed)
    meta = json.load(open(os.path.join(d, "meta.json")))
    title = ""
    notes = os.path.join(d, "notes.md")
    if os.path.exists(notes):
        for ln in open(notes):
            ln = ln.strip().lstrip("#").strip()
            if ln:
                title = ln
                break
    first = meta.get("checks_that_fire", {})
    first_s = ", ".join(sorted(first)) if first else "none"
    now = meta.get("checks_that_fire_now")
    now_s = ", ".join(now) if now is not None else first_s
    rows.append(f"| {seed} | {meta['breaks_property']} | {title[:140].replace('|', '/')} | {now_s} | {first_s} |")
p = os.path.join(VERIF, "DESIGN.md")
s = open(p).read()
m = re.search(r"(### 8\.3 Catalogue\n\n)(\| id \| breaks.*?)(\n\n|\Z)", s, re.S)
assert m, "catalogue not found"
s = s[: m.start(2)] + "\n".join(rows) + s[m.end(2):]
open(p, "w").write(s)
print(len(rows) - 2, "seeded changes")
