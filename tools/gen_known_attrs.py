#!/venv/bin/python
"""Record, per class of the pinned tree, the attribute names stored on `self` (sa/known_attrs.json): the vocabulary
the rules were written against, used by sa/normalise.dissolve_subrecords to give re-housed fields their names back.
Run on the pinned tree only."""
import ast, json, os, sys
root = os.path.join(os.environ.get("REDRESS_REPO", "/repo"), "src")
out = {}
for dp, dn, fns in os.walk(os.path.join(root, "redress")):
    for fn in sorted(fns):
        if not fn.endswith(".py"):
            continue
        p = os.path.join(dp, fn)
        rel = os.path.relpath(p, root)[:-3].split(os.sep)
        if rel[-1] == "__init__":
            rel = rel[:-1]
        mod = ".".join(rel)
        tree = ast.parse(open(p).read())
        for c in tree.body:
            if isinstance(c, ast.ClassDef):
                attrs = []
                for m in c.body:
                    if isinstance(m, (ast.FunctionDef, ast.AsyncFunctionDef)) and m.args.args:
                        s = m.args.args[0].arg
                        for n in ast.walk(m):
                            if isinstance(n, ast.Attribute) and isinstance(n.ctx, ast.Store) and isinstance(n.value, ast.Name) and n.value.id == s and n.attr not in attrs:
                                attrs.append(n.attr)
                if attrs:
                    out[f"{mod}:{c.name}"] = attrs
json.dump(out, open(os.path.join(os.path.dirname(os.path.abspath(__file__)), "..", "sa", "known_attrs.json"), "w"), indent=1, sort_keys=True)
print(len(out), "classes")
