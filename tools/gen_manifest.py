#!/venv/bin/python
"""Regenerates /verif/MANIFEST.json from the table below (single source of truth)."""
import json, os

HERE = os.path.dirname(os.path.dirname(os.path.abspath(__file__)))
PY = "/venv/bin/python"

CLAIMS = {}
def claim(pid, technique, text, note, ref):
    CLAIMS[pid] = dict(technique=technique, text=text, note=note, ref=ref)

exec(open(os.path.join(HERE, "tools", "claims.py")).read())

props = [json.loads(l) for l in open(os.path.join(HERE, "properties.jsonl"))]
checks, na = [], []
for p in props:
    pid = p["id"]
    c = CLAIMS.get(pid)
    if c is None or c.get("na"):
        na.append({"property_id": pid, "reason": (c or {}).get("na") or "check not built yet (build in progress); see DESIGN.md section 3"})
        continue
    checks.append({
        "property_id": pid,
        "quick_cmd": f"{PY} check {pid} --tier quick",
        "thorough_cmd": f"{PY} check {pid} --tier thorough",
        "evidence_file": f"evidence/{pid}.json",
        "replay_cmd_template": f"{PY} check --replay {{path}}",
        "engine": "sa",
        "level_claimed": {"category": "other", "text": c["text"], "design_ref": c["ref"]},
        "level_note": c["note"],
        "technique": c["technique"],
    })
m = {
    "version": 1,
    "setup_cmd": f"{PY} -c \"import ast, sys; sys.path.insert(0, '.'); import sa.model, sa.cfg, sa.absint, sa.paths; print('static analyser: stdlib only, nothing to build')\"",
    "hooks": {
        "guard": "REDRESS_VERIF",
        "enable": "none: the checks are static and need no instrumentation of /repo (no hook commits)",
        "baseline_off_cmd": "cd /repo && /venv/bin/python -m pytest -ra -q -p no:cacheprovider --timeout=900 --continue-on-collection-errors",
        "source_commits": [],
        "add_only": True,
    },
    "engines": [
        {"name": "sa", "path": "sa/", "serves_properties": [c["property_id"] for c in checks],
         "kind_free_text": "repository-specific static analyser (stdlib ast only): program model + call resolver, exception-aware CFG, path-sensitive typestate interpreter with summaries, symbolic path enumeration / decision-table extraction, linear normal forms, lockset, may-raise with type guards"},
    ],
    "checks": checks,
    "notes": "Static analysis only: every verdict is computed from /repo's current source; no check imports or runs redress. exit 0 held / exit 1 VIOLATION / exit 2 ANALYSIS-ERROR (fail-closed, never a VIOLATION). Known findings: known_findings.json. Self-test of the checker (seeded edits on scratch copies): selftest/run.py.",
    "not_applicable": na,
}
json.dump(m, open(os.path.join(HERE, "MANIFEST.json"), "w"), indent=1)
print(len(checks), "checks,", len(na), "not applicable")
