#!/venv/bin/python
"""Regenerate the "Rules as built" table of DESIGN.md (section 0a) from the evidence files."""
import glob
import json
import os
import re

VERIF = os.path.dirname(os.path.dirname(os.path.abspath(__file__)))
rows = ["| property | rule | n | decides |", "|---|---|---|---|"]
for f in sorted(glob.glob(os.path.join(VERIF, "evidence", "C*.json"))):
    j = json.load(open(f))
    for rid, r in j["coverage"].get("rules", {}).items():
        rows.append(f"| {j['property_id']} | {rid} | {r.get('instances', 0)} | {r.get('text', '').replace('|', '/')} |")
p = os.path.join(VERIF, "DESIGN.md")
s = open(p).read()
m = re.search(r"(\*\*Rules as built\*\*[^\n]*\n\n)(\| property \| rule.*?\n)(\n-{20,})", s, re.S)
assert m, "table not found"
s = s[: m.start(2)] + "\n".join(rows) + "\n" + s[m.start(3):]
open(p, "w").write(s)
print(len(rows) - 2, "rules")
