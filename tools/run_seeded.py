#!/venv/bin/python
"""Regression over the kept seeded changes: apply each /verif/seeded/<id>/patch.diff to a scratch
copy of /repo/src and run the check of the property it breaks (must exit 1 with a VIOLATION line).

    tools/run_seeded.py [-j 8] [--all-checks [--update-meta]] [--only <id suffixes, comma separated>]
"""
import concurrent.futures as cf
import json
import os
import shutil
import subprocess
import sys
import tempfile

VERIF = os.path.dirname(os.path.dirname(os.path.abspath(__file__)))


def run(seed: str):
    d = os.path.join(VERIF, "seeded", seed)
    meta = json.load(open(os.path.join(d, "meta.json")))
    prop = meta["breaks_property"]
    tmp = tempfile.mkdtemp(prefix="redress_seedrun_")
    try:
        shutil.copytree("/repo/src", os.path.join(tmp, "src"))
        subprocess.run(["git", "init", "-q", tmp], capture_output=True)
        r = subprocess.run(["git", "-C", tmp, "apply", "--include=src/*", os.path.join(d, "patch.diff")], capture_output=True, text=True)  # (only the library source is copied)
        if r.returncode:
            return seed, prop, "PATCH-ERROR", r.stderr[-200:]
        env = dict(os.environ, REDRESS_REPO=tmp, VERIF_OUT=os.path.join(tmp, "out"))
        props = [prop] if "--all-checks" not in sys.argv else [f"C{i:02d}" for i in range(1, 21)]
        fired = []
        first = ""
        for p in props:
            r = subprocess.run(["/venv/bin/python", os.path.join(VERIF, "check"), p], capture_output=True, text=True, env=env, cwd=VERIF)
            if r.returncode == 1 and f"VIOLATION property={p}" in r.stdout:
                fired.append(p)
                if p == prop:
                    first = next((ln.strip() for ln in r.stdout.splitlines() if ln.startswith("  R") and " instances=" not in ln), "")
        if "--update-meta" in sys.argv and "--all-checks" in sys.argv:
            meta["checks_that_fire_now"] = fired
            meta["own_check_message_now"] = first[:300]
            json.dump(meta, open(os.path.join(d, "meta.json"), "w"), indent=1)
        return seed, prop, "CAUGHT" if prop in fired else "MISSED", (",".join(fired) + " | " + first)[:260]
    finally:
        shutil.rmtree(tmp, ignore_errors=True)


def main() -> int:
    jobs = int(sys.argv[sys.argv.index("-j") + 1]) if "-j" in sys.argv else 8
    seeds = sorted(os.listdir(os.path.join(VERIF, "seeded")))
    only = next((a.split("=", 1)[1] for a in sys.argv if a.startswith("--only=")), None)
    if only is None and "--only" in sys.argv:
        only = sys.argv[sys.argv.index("--only") + 1]
    if only is not None:  # e.g. --only=-19,-20: seeds whose id ends with one of the suffixes
        seeds = [s for s in seeds if s.endswith(tuple(only.split(",")))]
    if "--props" in sys.argv:  # e.g. --props C16,C02: seeds breaking one of these properties
        pfx = tuple(x + "-" for x in sys.argv[sys.argv.index("--props") + 1].split(","))
        seeds = [s for s in seeds if s.startswith(pfx)]
    bad = 0
    with cf.ThreadPoolExecutor(max_workers=jobs) as ex:
        for seed, prop, status, info in ex.map(run, seeds):
            print(f"{status:7s} {seed:8s} breaks {prop}: {info}")
            bad += status != "CAUGHT"
    print(f"{len(seeds)} seeded changes, {bad} not caught by the check of the property they break")
    return 1 if bad else 0


if __name__ == "__main__":
    sys.exit(main())
